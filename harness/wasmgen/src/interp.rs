//! Reference interpreter: a direct transcription of the WebAssembly 1.0 execution semantics for
//! the integer subset (+ sign extension) over our flat AST. Explicit operand stack, label stack
//! and frames; wrapping arithmetic; traps exactly per spec. Also accumulates the *exact* scheduled
//! energy of the instructions it executes when given a cost table (see `cost.rs`).
//! Shares no code with `/repo`.
use crate::ast::*;
use crate::cost::StaticCosts;

pub const PAGE: usize = 65536;
/// Hard cap on memory pages that the engine documents (32 MiB).
pub const MAX_PAGES: usize = 512;

#[derive(Debug, Clone, Copy, PartialEq, Eq, Hash)]
pub enum Trap {
    Unreachable,
    DivByZero,
    IntOverflow,
    MemOob,
    UndefinedElement,
    IndirectTypeMismatch,
    CallDepth,
    Host,
    /// The reference's own step budget ran out (inconclusive, not a semantic outcome).
    Fuel,
    /// Exact energy of executed instructions exceeded the budget: the engine must be out of energy.
    Energy,
}

#[derive(Debug, Clone, PartialEq, Eq)]
pub enum Outcome {
    Done(Option<u64>),
    Trap(Trap),
}

/// Host interface of the reference interpreter.
pub trait RefHost {
    /// Call of imported function `import` with raw argument values. Returns the raw result (ignored
    /// if the function type has no result).
    fn call(&mut self, import: usize, args: &[u64], mem: &mut Vec<u8>, energy_so_far: u64) -> Result<u64, Trap>;
    /// Called when `memory.grow n` is executed (before growing); mirrors the metering host call.
    fn grow(&mut self, _pages: u32, _energy_so_far: u64, _mem_len: usize) -> Result<(), Trap> { Ok(()) }
}

pub struct NoHost;
impl RefHost for NoHost {
    fn call(&mut self, _i: usize, _a: &[u64], _m: &mut Vec<u8>, _e: u64) -> Result<u64, Trap> { Err(Trap::Host) }
}

#[derive(Debug, Clone, Copy)]
struct Ctrl {
    /// For Block/Loop/If/Else: position of the matching End.
    end:   usize,
    /// For If: position of the matching Else, if any.
    else_: Option<usize>,
}

#[derive(Debug, Clone)]
pub struct Prepared {
    ctrl: Vec<Vec<Option<Ctrl>>>,
}

/// Precompute block structure. Returns None if some body is not well nested.
pub fn prepare(m: &Module) -> Option<Prepared> {
    let mut all = Vec::new();
    for f in &m.funcs {
        let mut ctrl: Vec<Option<Ctrl>> = vec![None; f.body.len()];
        let mut stack: Vec<(usize, Option<usize>)> = Vec::new();
        let mut closed = false;
        for (i, op) in f.body.iter().enumerate() {
            if closed {
                return None;
            }
            match op {
                Op::Block(_) | Op::Loop(_) | Op::If(_) => stack.push((i, None)),
                Op::Else => {
                    let top = stack.last_mut()?;
                    if !matches!(f.body[top.0], Op::If(_)) || top.1.is_some() {
                        return None;
                    }
                    top.1 = Some(i);
                }
                Op::End => match stack.pop() {
                    Some((start, els)) => {
                        ctrl[start] = Some(Ctrl { end: i, else_: els });
                        if let Some(e) = els {
                            ctrl[e] = Some(Ctrl { end: i, else_: None });
                        }
                    }
                    None => closed = true,
                },
                _ => {}
            }
        }
        if !closed || !stack.is_empty() {
            return None;
        }
        all.push(ctrl);
    }
    Some(Prepared { ctrl: all })
}

#[derive(Debug, Clone, Copy)]
struct Label {
    cont:    usize,
    arity:   usize,
    height:  usize,
    is_loop: bool,
}

struct Frame {
    func:   usize,
    pc:     usize,
    locals: Vec<u64>,
    labels: Vec<Label>,
    base:   usize,
}

/// Execution statistics used for non-triviality classification and by the metering oracle.
#[derive(Debug, Clone, Default)]
pub struct Stats {
    pub steps:            u64,
    pub taken_brif:       u64,
    pub nottaken_brif:    u64,
    pub carried_branches: u64,
    pub carried_brif_nottaken: u64,
    pub calls:            u64,
    pub host_calls:       u64,
    pub loop_backedges:   u64,
    pub br_tables:        u64,
    pub mem_grows:        u64,
    pub local_writes:     u64,
    pub max_depth:        usize,
    /// Exact scheduled energy of everything executed so far (0 without a cost table).
    pub energy:           u64,
    /// On a trap: (function index among defined functions, pc) where it happened.
    pub trap_at:          Option<(usize, usize)>,
}

pub struct Instance<'a> {
    pub module:  &'a Module,
    prep:        &'a Prepared,
    pub memory:  Vec<u8>,
    pub globals: Vec<u64>,
    pub table:   Vec<Option<u32>>,
    max_pages:   usize,
    pub stats:   Stats,
    pub max_call_depth: usize,
    pub fuel:    u64,
    pub energy_budget: u64,
    costs:       Option<&'a StaticCosts>,
}

fn mask(t: ValType, v: u64) -> u64 {
    match t {
        ValType::I32 => v & 0xffff_ffff,
        ValType::I64 => v,
    }
}

impl<'a> Instance<'a> {
    /// Instantiate: memory, globals and table initialised from the module's segments.
    /// The module is assumed valid (segments in bounds) — enforced by the reference validator.
    pub fn new(module: &'a Module, prep: &'a Prepared, costs: Option<&'a StaticCosts>) -> Self {
        let mut globals = Vec::with_capacity(module.globals.len());
        for g in &module.globals {
            let v = match g.init {
                ConstExpr::I32(v) => v as u32 as u64,
                ConstExpr::I64(v) => v as u64,
                ConstExpr::GlobalGet(i) => globals.get(i as usize).copied().unwrap_or(0),
            };
            globals.push(v);
        }
        let eval_off = |c: &ConstExpr, globals: &Vec<u64>| -> usize {
            match c {
                ConstExpr::I32(v) => *v as u32 as usize,
                ConstExpr::I64(v) => *v as usize,
                ConstExpr::GlobalGet(i) => globals.get(*i as usize).copied().unwrap_or(0) as u32 as usize,
            }
        };
        let (memory, max_pages) = match module.memory {
            Some(l) => {
                let mut mem = vec![0u8; l.min as usize * PAGE];
                for d in &module.datas {
                    let off = eval_off(&d.offset, &globals);
                    if off + d.bytes.len() <= mem.len() {
                        mem[off..off + d.bytes.len()].copy_from_slice(&d.bytes);
                    }
                }
                (mem, l.max.map(|m| (m as usize).min(MAX_PAGES)).unwrap_or(MAX_PAGES))
            }
            None => (Vec::new(), 0),
        };
        let mut table = vec![None; module.table.map(|t| t.min as usize).unwrap_or(0)];
        for e in &module.elems {
            let off = eval_off(&e.offset, &globals);
            for (i, f) in e.funcs.iter().enumerate() {
                if off + i < table.len() {
                    table[off + i] = Some(*f);
                }
            }
        }
        Instance {
            module,
            prep,
            memory,
            globals,
            table,
            max_pages,
            stats: Stats::default(),
            max_call_depth: 1024,
            fuel: 100_000,
            energy_budget: u64::MAX,
            costs,
        }
    }

    #[inline]
    fn charge(&mut self, e: u64) -> Result<(), Trap> {
        self.stats.energy = self.stats.energy.saturating_add(e);
        if self.stats.energy > self.energy_budget {
            return Err(Trap::Energy);
        }
        Ok(())
    }

    /// Run exported/defined function `func_idx` (joint index space) with raw args.
    pub fn run(&mut self, func_idx: u32, args: &[u64], host: &mut dyn RefHost) -> Outcome {
        match self.run_inner(func_idx, args, host) {
            Ok(v) => Outcome::Done(v),
            Err(t) => Outcome::Trap(t),
        }
    }

    fn new_frame(&self, def_idx: usize, args: &[u64], base: usize) -> Frame {
        let f = &self.module.funcs[def_idx];
        let mut locals = Vec::with_capacity(args.len() + f.num_declared_locals() as usize);
        locals.extend_from_slice(args);
        locals.resize(args.len() + f.num_declared_locals() as usize, 0);
        Frame { func: def_idx, pc: 0, locals, labels: Vec::new(), base }
    }

    fn run_inner(&mut self, func_idx: u32, args: &[u64], host: &mut dyn RefHost) -> Result<Option<u64>, Trap> {
        let nimports = self.module.imports.len();
        let m = self.module;
        let def = (func_idx as usize).checked_sub(nimports).ok_or(Trap::Host)?;
        let mut stack: Vec<u64> = Vec::new();
        let mut frames: Vec<Frame> = Vec::new();
        let mut fr = self.new_frame(def, args, 0);
        if let Some(c) = self.costs {
            self.charge(c.invoke_after[def])?;
        }
        loop {
            let func = &m.funcs[fr.func];
            let pc = fr.pc;
            let op = &func.body[pc];
            self.stats.steps += 1;
            if self.stats.steps > self.fuel {
                return Err(Trap::Fuel);
            }
            if let Some(c) = self.costs {
                let e = c.per_instr[fr.func][pc];
                if e != 0 {
                    if let Err(t) = self.charge(e) {
                        self.stats.trap_at = Some((fr.func, pc));
                        return Err(t);
                    }
                }
            }
            fr.pc += 1;
            macro_rules! trap {
                ($t:expr) => {{
                    self.stats.trap_at = Some((fr.func, pc));
                    return Err($t);
                }};
            }
            // branch to label l of the current frame; returns true if it is the function label
            macro_rules! branch {
                ($l:expr) => {{
                    let l = $l as usize;
                    if l >= fr.labels.len() {
                        // function-level label: behave like return
                        let res_ty = m.types[func.ty as usize].result;
                        let res = if res_ty.is_some() { Some(stack.pop().unwrap()) } else { None };
                        if res.is_some() {
                            self.stats.carried_branches += 1;
                        }
                        stack.truncate(fr.base);
                        match frames.pop() {
                            None => return Ok(res),
                            Some(caller) => {
                                fr = caller;
                                if let Some(v) = res {
                                    stack.push(v);
                                }
                            }
                        }
                    } else {
                        let idx = fr.labels.len() - 1 - l;
                        let lab = fr.labels[idx];
                        if lab.is_loop {
                            self.stats.loop_backedges += 1;
                            fr.labels.truncate(idx + 1);
                            stack.truncate(lab.height);
                        } else {
                            fr.labels.truncate(idx);
                            if lab.arity == 1 {
                                self.stats.carried_branches += 1;
                                let v = stack.pop().unwrap();
                                stack.truncate(lab.height);
                                stack.push(v);
                            } else {
                                stack.truncate(lab.height);
                            }
                        }
                        fr.pc = lab.cont;
                    }
                }};
            }
            match op {
                Op::Unreachable => trap!(Trap::Unreachable),
                Op::Nop => {}
                Op::Block(bt) => {
                    let c = self.prep.ctrl[fr.func][pc].unwrap();
                    fr.labels.push(Label { cont: c.end + 1, arity: bt.arity(), height: stack.len(), is_loop: false });
                }
                Op::Loop(_) => {
                    fr.labels.push(Label { cont: pc + 1, arity: 0, height: stack.len(), is_loop: true });
                }
                Op::If(bt) => {
                    let c = self.prep.ctrl[fr.func][pc].unwrap();
                    let cond = stack.pop().unwrap() as u32;
                    if cond != 0 {
                        fr.labels.push(Label { cont: c.end + 1, arity: bt.arity(), height: stack.len(), is_loop: false });
                    } else if let Some(e) = c.else_ {
                        fr.labels.push(Label { cont: c.end + 1, arity: bt.arity(), height: stack.len(), is_loop: false });
                        fr.pc = e + 1;
                    } else {
                        fr.pc = c.end + 1;
                    }
                }
                Op::Else => {
                    // end of the then-branch reached by falling through: leave the block
                    let c = self.prep.ctrl[fr.func][pc].unwrap();
                    fr.labels.pop();
                    fr.pc = c.end + 1;
                }
                Op::End => {
                    if fr.labels.pop().is_none() {
                        // end of function body
                        let res_ty = m.types[func.ty as usize].result;
                        let res = if res_ty.is_some() { Some(stack.pop().unwrap()) } else { None };
                        stack.truncate(fr.base);
                        match frames.pop() {
                            None => return Ok(res),
                            Some(caller) => {
                                fr = caller;
                                if let Some(v) = res {
                                    stack.push(v);
                                }
                            }
                        }
                    }
                }
                Op::Br(l) => branch!(*l),
                Op::BrIf(l) => {
                    let cond = stack.pop().unwrap() as u32;
                    let carried = self.label_arity(&fr, func, *l) == 1;
                    if cond != 0 {
                        self.stats.taken_brif += 1;
                        if let Some(c) = self.costs {
                            let e = c.brif_taken[fr.func][pc];
                            if let Err(t) = self.charge(e) {
                                self.stats.trap_at = Some((fr.func, pc));
                                return Err(t);
                            }
                        }
                        branch!(*l)
                    } else {
                        self.stats.nottaken_brif += 1;
                        if carried {
                            self.stats.carried_brif_nottaken += 1;
                        }
                    }
                }
                Op::BrTable(ls, d) => {
                    self.stats.br_tables += 1;
                    let i = stack.pop().unwrap() as u32 as usize;
                    let l = if i < ls.len() { ls[i] } else { *d };
                    branch!(l)
                }
                Op::Return => {
                    let res_ty = m.types[func.ty as usize].result;
                    let res = if res_ty.is_some() { Some(stack.pop().unwrap()) } else { None };
                    stack.truncate(fr.base);
                    match frames.pop() {
                        None => return Ok(res),
                        Some(caller) => {
                            fr = caller;
                            if let Some(v) = res {
                                stack.push(v);
                            }
                        }
                    }
                }
                Op::Call(idx) | Op::CallIndirect(idx) => {
                    let callee: u32 = if let Op::CallIndirect(ty_idx) = op {
                        let i = stack.pop().unwrap() as u32 as usize;
                        let Some(Some(f)) = self.table.get(i).copied() else { trap!(Trap::UndefinedElement) };
                        let expected = &m.types[*ty_idx as usize];
                        let actual = m.func_type(f).unwrap();
                        if expected != actual {
                            trap!(Trap::IndirectTypeMismatch)
                        }
                        f
                    } else {
                        *idx
                    };
                    let ty = m.func_type(callee).unwrap();
                    let n = ty.params.len();
                    let args: Vec<u64> = stack.split_off(stack.len() - n);
                    if (callee as usize) < nimports {
                        self.stats.host_calls += 1;
                        let e = self.stats.energy;
                        match host.call(callee as usize, &args, &mut self.memory, e) {
                            Ok(v) => {
                                if let Some(t) = ty.result {
                                    stack.push(mask(t, v));
                                }
                            }
                            Err(t) => trap!(t),
                        }
                    } else {
                        self.stats.calls += 1;
                        if frames.len() + 1 > self.max_call_depth {
                            trap!(Trap::CallDepth)
                        }
                        let def = callee as usize - nimports;
                        let base = stack.len();
                        let new = self.new_frame(def, &args, base);
                        frames.push(std::mem::replace(&mut fr, new));
                        self.stats.max_depth = self.stats.max_depth.max(frames.len());
                        if let Some(c) = self.costs {
                            if let Err(t) = self.charge(c.invoke_after[def]) {
                                self.stats.trap_at = Some((fr.func, 0));
                                return Err(t);
                            }
                        }
                    }
                }
                Op::Drop => {
                    stack.pop().unwrap();
                }
                Op::Select => {
                    let c = stack.pop().unwrap() as u32;
                    let v2 = stack.pop().unwrap();
                    let v1 = stack.pop().unwrap();
                    stack.push(if c != 0 { v1 } else { v2 });
                }
                Op::LocalGet(i) => stack.push(fr.locals[*i as usize]),
                Op::LocalSet(i) => {
                    self.stats.local_writes += 1;
                    fr.locals[*i as usize] = stack.pop().unwrap()
                }
                Op::LocalTee(i) => {
                    self.stats.local_writes += 1;
                    fr.locals[*i as usize] = *stack.last().unwrap()
                }
                Op::GlobalGet(i) => stack.push(self.globals[*i as usize]),
                Op::GlobalSet(i) => self.globals[*i as usize] = stack.pop().unwrap(),
                Op::Mem { op: mop, offset, .. } => {
                    let w = mop.width() as usize;
                    if mop.is_store() {
                        let v = stack.pop().unwrap();
                        let base = stack.pop().unwrap() as u32 as u64;
                        let ea = base + *offset as u64;
                        if ea + w as u64 > self.memory.len() as u64 {
                            trap!(Trap::MemOob)
                        }
                        let ea = ea as usize;
                        self.memory[ea..ea + w].copy_from_slice(&v.to_le_bytes()[..w]);
                    } else {
                        let base = stack.pop().unwrap() as u32 as u64;
                        let ea = base + *offset as u64;
                        if ea + w as u64 > self.memory.len() as u64 {
                            trap!(Trap::MemOob)
                        }
                        let ea = ea as usize;
                        let mut b = [0u8; 8];
                        b[..w].copy_from_slice(&self.memory[ea..ea + w]);
                        let raw = u64::from_le_bytes(b);
                        let v = if mop.signed() {
                            let shift = 64 - 8 * w as u32;
                            (((raw << shift) as i64) >> shift) as u64
                        } else {
                            raw
                        };
                        stack.push(mask(mop.ty(), v));
                    }
                }
                Op::MemorySize => stack.push((self.memory.len() / PAGE) as u64),
                Op::MemoryGrow => {
                    let n = stack.pop().unwrap() as u32;
                    self.stats.mem_grows += 1;
                    let e = self.stats.energy;
                    let ml = self.memory.len();
                    if let Err(t) = host.grow(n, e, ml) {
                        trap!(t)
                    }
                    let sz = self.memory.len() / PAGE;
                    if sz + n as usize > self.max_pages {
                        stack.push(0xffff_ffff);
                    } else {
                        self.memory.resize((sz + n as usize) * PAGE, 0);
                        stack.push(sz as u64);
                    }
                }
                Op::I32Const(v) => stack.push(*v as u32 as u64),
                Op::I64Const(v) => stack.push(*v as u64),
                Op::Num(n) => {
                    let r = match n.inputs().len() {
                        1 => {
                            let a = stack.pop().unwrap();
                            eval1(*n, a)
                        }
                        _ => {
                            let b = stack.pop().unwrap();
                            let a = stack.pop().unwrap();
                            match eval2(*n, a, b) {
                                Ok(v) => v,
                                Err(t) => trap!(t),
                            }
                        }
                    };
                    stack.push(mask(n.output(), r));
                }
                Op::Raw(_) => trap!(Trap::Host),
            }
        }
    }

    fn label_arity(&self, fr: &Frame, func: &Func, l: u32) -> usize {
        let l = l as usize;
        if l >= fr.labels.len() {
            self.module.types[func.ty as usize].result.is_some() as usize
        } else {
            let lab = fr.labels[fr.labels.len() - 1 - l];
            if lab.is_loop {
                0
            } else {
                lab.arity
            }
        }
    }
}

pub fn eval1(op: NumOp, a: u64) -> u64 {
    use NumOp::*;
    let a32 = a as u32;
    match op {
        I32Eqz => (a32 == 0) as u64,
        I64Eqz => (a == 0) as u64,
        I32Clz => a32.leading_zeros() as u64,
        I32Ctz => a32.trailing_zeros() as u64,
        I32Popcnt => a32.count_ones() as u64,
        I64Clz => a.leading_zeros() as u64,
        I64Ctz => a.trailing_zeros() as u64,
        I64Popcnt => a.count_ones() as u64,
        I32WrapI64 => a & 0xffff_ffff,
        I64ExtendI32S => a32 as i32 as i64 as u64,
        I64ExtendI32U => a32 as u64,
        I32Extend8S => a32 as i8 as i32 as u32 as u64,
        I32Extend16S => a32 as i16 as i32 as u32 as u64,
        I64Extend8S => a as i8 as i64 as u64,
        I64Extend16S => a as i16 as i64 as u64,
        I64Extend32S => a as i32 as i64 as u64,
        _ => unreachable!("not unary: {:?}", op),
    }
}

pub fn eval2(op: NumOp, a: u64, b: u64) -> Result<u64, Trap> {
    use NumOp::*;
    let (x, y) = (a as u32, b as u32);
    let (xs, ys) = (x as i32, y as i32);
    let (as_, bs) = (a as i64, b as i64);
    Ok(match op {
        I32Eq => (x == y) as u64,
        I32Ne => (x != y) as u64,
        I32LtS => (xs < ys) as u64,
        I32LtU => (x < y) as u64,
        I32GtS => (xs > ys) as u64,
        I32GtU => (x > y) as u64,
        I32LeS => (xs <= ys) as u64,
        I32LeU => (x <= y) as u64,
        I32GeS => (xs >= ys) as u64,
        I32GeU => (x >= y) as u64,
        I64Eq => (a == b) as u64,
        I64Ne => (a != b) as u64,
        I64LtS => (as_ < bs) as u64,
        I64LtU => (a < b) as u64,
        I64GtS => (as_ > bs) as u64,
        I64GtU => (a > b) as u64,
        I64LeS => (as_ <= bs) as u64,
        I64LeU => (a <= b) as u64,
        I64GeS => (as_ >= bs) as u64,
        I64GeU => (a >= b) as u64,
        I32Add => x.wrapping_add(y) as u64,
        I32Sub => x.wrapping_sub(y) as u64,
        I32Mul => x.wrapping_mul(y) as u64,
        I32DivS => {
            if y == 0 {
                return Err(Trap::DivByZero);
            }
            if xs == i32::MIN && ys == -1 {
                return Err(Trap::IntOverflow);
            }
            (xs / ys) as u32 as u64
        }
        I32DivU => {
            if y == 0 {
                return Err(Trap::DivByZero);
            }
            (x / y) as u64
        }
        I32RemS => {
            if y == 0 {
                return Err(Trap::DivByZero);
            }
            if ys == -1 {
                0
            } else {
                (xs % ys) as u32 as u64
            }
        }
        I32RemU => {
            if y == 0 {
                return Err(Trap::DivByZero);
            }
            (x % y) as u64
        }
        I32And => (x & y) as u64,
        I32Or => (x | y) as u64,
        I32Xor => (x ^ y) as u64,
        I32Shl => (x << (y & 31)) as u64,
        I32ShrS => (xs >> (y & 31)) as u32 as u64,
        I32ShrU => (x >> (y & 31)) as u64,
        I32Rotl => x.rotate_left(y & 31) as u64,
        I32Rotr => x.rotate_right(y & 31) as u64,
        I64Add => a.wrapping_add(b),
        I64Sub => a.wrapping_sub(b),
        I64Mul => a.wrapping_mul(b),
        I64DivS => {
            if b == 0 {
                return Err(Trap::DivByZero);
            }
            if as_ == i64::MIN && bs == -1 {
                return Err(Trap::IntOverflow);
            }
            (as_ / bs) as u64
        }
        I64DivU => {
            if b == 0 {
                return Err(Trap::DivByZero);
            }
            a / b
        }
        I64RemS => {
            if b == 0 {
                return Err(Trap::DivByZero);
            }
            if bs == -1 {
                0
            } else {
                (as_ % bs) as u64
            }
        }
        I64RemU => {
            if b == 0 {
                return Err(Trap::DivByZero);
            }
            a % b
        }
        I64And => a & b,
        I64Or => a | b,
        I64Xor => a ^ b,
        I64Shl => a << (b & 63),
        I64ShrS => (as_ >> (b & 63)) as u64,
        I64ShrU => a >> (b & 63),
        I64Rotl => a.rotate_left((b & 63) as u32),
        I64Rotr => a.rotate_right((b & 63) as u32),
        _ => unreachable!("not binary: {:?}", op),
    })
}
