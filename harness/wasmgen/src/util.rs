//! Helpers shared by the Wasm checks.
use crate::ast::*;
use crate::hostmodel::HostModel;
use crate::interp::{RefHost, Trap};

/// Append, for every defined function `f_i`, an exported wrapper `g<i>` with the same parameters
/// that calls `f_i`, discards its result and returns an i64 digest of all globals. Running the
/// wrapper makes the final values of globals observable through the result.
pub fn add_global_digests(m: &mut Module) {
    let nimports = m.imports.len() as u32;
    let n = m.funcs.len();
    for i in 0..n {
        let fty = m.types[m.funcs[i].ty as usize].clone();
        let wty = FuncType { params: fty.params.clone(), result: Some(ValType::I64) };
        let ti = match m.types.iter().position(|t| *t == wty) {
            Some(t) => t,
            None => {
                m.types.push(wty);
                m.types.len() - 1
            }
        };
        let mut body = Vec::new();
        for p in 0..fty.params.len() {
            body.push(Op::LocalGet(p as u32));
        }
        body.push(Op::Call(nimports + i as u32));
        if fty.result.is_some() {
            body.push(Op::Drop);
        }
        body.push(Op::I64Const(0));
        for (gi, g) in m.globals.iter().enumerate() {
            body.push(Op::I64Const(7));
            body.push(Op::Num(NumOp::I64Rotl));
            body.push(Op::GlobalGet(gi as u32));
            if g.ty == ValType::I32 {
                body.push(Op::Num(NumOp::I64ExtendI32U));
            }
            body.push(Op::Num(NumOp::I64Xor));
        }
        body.push(Op::End);
        m.funcs.push(Func { ty: ti as u32, locals: vec![], body });
        m.exports.push(Export { name: format!("g{}", i), kind: ExportKind::Func(nimports + (n + i) as u32) });
    }
}

/// Adapter: the shared host model as host of the reference interpreter.
pub struct ModelHost<'a> {
    pub model:   HostModel,
    pub names:   Vec<&'a str>,
    /// (pages, exact energy so far) for each memory.grow executed
    pub grows:   Vec<(u32, u64, usize)>,
    /// exact energy at each host call
    pub call_energy: Vec<u64>,
}

impl<'a> ModelHost<'a> {
    pub fn new(m: &'a Module) -> Self {
        ModelHost {
            model: HostModel::default(),
            names: m.imports.iter().map(|i| i.name.as_str()).collect(),
            grows: Vec::new(),
            call_energy: Vec::new(),
        }
    }
}

impl RefHost for ModelHost<'_> {
    fn call(&mut self, import: usize, args: &[u64], mem: &mut Vec<u8>, energy: u64) -> Result<u64, Trap> {
        self.call_energy.push(energy);
        match self.model.call(self.names[import], args, mem) {
            Ok(v) => Ok(v.unwrap_or(0)),
            Err(()) => Err(Trap::Host),
        }
    }

    fn grow(&mut self, pages: u32, energy: u64, mem_len: usize) -> Result<(), Trap> {
        self.grows.push((pages, energy, mem_len));
        Ok(())
    }
}
