//! A small deterministic set of host functions shared by the reference interpreter and by the
//! harness side of the real engine (the host is not under test; both sides must simply see the
//! same host). Module name "env".
use crate::ast::{FuncType, ValType};
use crate::gen::HostImport;

pub const HOST_MODULE: &str = "env";

pub fn std_imports() -> Vec<HostImport> {
    use ValType::*;
    let mk = |name: &str, params: Vec<ValType>, result: Option<ValType>| HostImport {
        module: HOST_MODULE.to_string(),
        name:   name.to_string(),
        ty:     FuncType { params, result },
    };
    vec![
        mk("h_mix", vec![I32, I64], Some(I64)),
        mk("h_poke", vec![I32, I64], Some(I32)),
        mk("h_peek", vec![I32], Some(I64)),
        mk("h_trap", vec![I32], None),
        mk("h_nop", vec![], None),
    ]
}

#[derive(Debug, Clone, Default, PartialEq, Eq)]
pub struct HostModel {
    pub counter: u64,
    /// (function name, arguments) of every call, in order.
    pub log:     Vec<(String, Vec<u64>)>,
}

fn mix(a: u64, b: u64, c: u64) -> u64 {
    let mut x = a.wrapping_mul(0x9e37_79b9_7f4a_7c15) ^ b.rotate_left(23) ^ c.wrapping_mul(0xff51_afd7_ed55_8ccd);
    x ^= x >> 29;
    x = x.wrapping_mul(0xbf58_476d_1ce4_e5b9);
    x ^ (x >> 32)
}

impl HostModel {
    /// Returns Err(()) for a host trap, Ok(result) otherwise (None for functions without result).
    pub fn call(&mut self, name: &str, args: &[u64], mem: &mut [u8]) -> Result<Option<u64>, ()> {
        self.counter += 1;
        self.log.push((name.to_string(), args.to_vec()));
        match name {
            "h_mix" => Ok(Some(mix(args[0] & 0xffff_ffff, args[1], self.counter))),
            "h_poke" => {
                let a = (args[0] & 0xffff_ffff) as usize;
                if a.checked_add(8).map(|e| e <= mem.len()).unwrap_or(false) {
                    mem[a..a + 8].copy_from_slice(&args[1].to_le_bytes());
                    Ok(Some(1))
                } else {
                    Ok(Some(0))
                }
            }
            "h_peek" => {
                let a = (args[0] & 0xffff_ffff) as usize;
                if a.checked_add(8).map(|e| e <= mem.len()).unwrap_or(false) {
                    let mut b = [0u8; 8];
                    b.copy_from_slice(&mem[a..a + 8]);
                    Ok(Some(u64::from_le_bytes(b)))
                } else {
                    Err(())
                }
            }
            "h_trap" => {
                if args[0] & 0xffff_ffff == 0 {
                    Err(())
                } else {
                    Ok(None)
                }
            }
            "h_nop" => Ok(None),
            _ => Err(()),
        }
    }
}
