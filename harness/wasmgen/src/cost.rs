//! Independent transcription of the two energy cost schedules (V0: protocols 1-6, V1: later) from
//! their documentation in `metering_transformation.rs`, keyed by our own AST. Used as the oracle
//! for "energy charged = schedule summed over executed instructions".
use crate::ast::*;

#[derive(Debug, Clone, Copy, PartialEq, Eq)]
pub enum CostTable {
    V0,
    V1,
}

impl CostTable {
    /// Cost of an unconditional branch to a label of the given arity.
    pub fn branch(self, arity: usize) -> u64 {
        match self {
            // JUMP (8) + copy of `arity` stack elements
            CostTable::V0 => 8 + arity as u64,
            // JUMP (2)
            CostTable::V1 => 2,
        }
    }

    /// Charged on function entry for the declared (non-parameter) locals.
    pub fn invoke_after(self, declared_locals: u64) -> u64 {
        match self {
            CostTable::V0 => 4 * declared_locals,
            CostTable::V1 => declared_locals / 16,
        }
    }

    /// Cost of a call *before* entering the callee.
    pub fn invoke_before(self, nargs: usize, nres: usize) -> u64 {
        match self {
            // FUNC_FRAME_BASE 10 + args + JUMP 8 + results + JUMP 8
            CostTable::V0 => 10 + nargs as u64 + 8 + nres as u64 + 8,
            // FUNC_FRAME_BASE 2 + args + JUMP 2 + results + JUMP 2
            CostTable::V1 => 2 + nargs as u64 + 2 + nres as u64 + 2,
        }
    }

    pub fn call_indirect(self, nargs: usize, nres: usize) -> u64 {
        match self {
            // BOUNDS 2 + type check (one per type) + invoke
            CostTable::V0 => 2 + (nargs + nres) as u64 + self.invoke_before(nargs, nres),
            // BOUNDS 2 + type check (len / 10) + invoke
            CostTable::V1 => 2 + ((nargs + nres) / 10) as u64 + self.invoke_before(nargs, nres),
        }
    }

    fn numop(self, n: NumOp) -> u64 {
        use NumOp::*;
        let unary = n.inputs().len() == 1;
        let heavy = matches!(
            n,
            I32Mul | I32DivS | I32DivU | I32RemS | I32RemU | I64Mul | I64DivS | I64DivU | I64RemS | I64RemU
        );
        match self {
            CostTable::V0 => {
                if unary {
                    3 // UNOP (read 1 + write 1) + 1
                } else if heavy {
                    5 // BINOP (read 2 + write 1) + 2
                } else {
                    4 // BINOP + 1
                }
            }
            CostTable::V1 => {
                if unary {
                    1
                } else if heavy {
                    2
                } else {
                    1
                }
            }
        }
    }

    fn memop(self, m: MemOp) -> u64 {
        match self {
            CostTable::V0 => {
                if !m.is_store() {
                    4 // LOAD_WORD
                } else {
                    match m {
                        MemOp::I32Store => 2 + 2 + 4,
                        MemOp::I64Store => 2 + 2 + 6,
                        MemOp::I32Store8 => 2 + 2 + 1,
                        MemOp::I32Store16 => 2 + 2 + 4,
                        MemOp::I64Store8 => 2 + 2 + 1 + 2,
                        MemOp::I64Store16 => 2 + 2 + 2 + 3,
                        MemOp::I64Store32 => 2 + 2 + 2 + 4,
                        _ => unreachable!(),
                    }
                }
            }
            CostTable::V1 => {
                if !m.is_store() {
                    1
                } else {
                    2
                }
            }
        }
    }
}

/// Static per-position costs for a module under one schedule.
#[derive(Debug, Clone)]
pub struct StaticCosts {
    pub table:        CostTable,
    /// `per_instr[f][pc]`: cost of executing the instruction at `pc` (for `br_if`: the not-taken part).
    pub per_instr:    Vec<Vec<u64>>,
    /// `brif_taken[f][pc]`: additional cost when the `br_if` at `pc` is taken.
    pub brif_taken:   Vec<Vec<u64>>,
    pub invoke_after: Vec<u64>,
    /// `seg_rest[f][pc]`: cost of the instructions after `pc` up to and including the end of the
    /// straight-line metering segment `pc` belongs to (what is already charged but not yet executed
    /// when `pc` traps).
    pub seg_rest:     Vec<Vec<u64>>,
}

/// Does the instruction end a metering segment (its own cost belongs to the segment it ends)?
fn ends_segment(op: &Op) -> bool {
    matches!(
        op,
        Op::Loop(_)
            | Op::If(_)
            | Op::Return
            | Op::End
            | Op::Else
            | Op::Unreachable
            | Op::Br(_)
            | Op::BrIf(_)
            | Op::BrTable(..)
            | Op::Call(_)
            | Op::CallIndirect(_)
    )
}

pub fn static_costs(m: &Module, table: CostTable) -> StaticCosts {
    let mut per_instr = Vec::new();
    let mut brif_taken = Vec::new();
    let mut invoke_after = Vec::new();
    let mut seg_rest = Vec::new();
    for f in &m.funcs {
        let fty = &m.types[f.ty as usize];
        invoke_after.push(table.invoke_after(f.num_declared_locals()));
        // label arities, innermost last; index 0 is the function label
        let mut labels: Vec<usize> = vec![fty.result.is_some() as usize];
        let mut costs = Vec::with_capacity(f.body.len());
        let mut taken = Vec::with_capacity(f.body.len());
        let lookup = |labels: &Vec<usize>, l: u32| -> usize {
            let l = l as usize;
            if l < labels.len() {
                labels[labels.len() - 1 - l]
            } else {
                0
            }
        };
        for op in &f.body {
            let mut t = 0u64;
            let c = match op {
                Op::Nop => 1,
                Op::Unreachable | Op::Block(_) | Op::Loop(_) | Op::End | Op::Else => 0,
                // IF_STATEMENT = TEST 2 + JUMP
                Op::If(_) => match table {
                    CostTable::V0 => 2 + 8,
                    CostTable::V1 => 2 + 2,
                },
                Op::Br(l) => table.branch(lookup(&labels, *l)),
                Op::BrIf(l) => {
                    t = table.branch(lookup(&labels, *l));
                    match table {
                        CostTable::V0 => 2 + 8,
                        CostTable::V1 => 2 + 2,
                    }
                }
                Op::BrTable(_, d) => match table {
                    // BOUNDS + branch(arity)
                    CostTable::V0 => 2 + table.branch(lookup(&labels, *d)),
                    // BOUNDS + 3 + JUMP
                    CostTable::V1 => 2 + 3 + 2,
                },
                Op::Return => table.branch(labels[0]),
                Op::Call(i) => match m.func_type(*i) {
                    Some(t) => table.invoke_before(t.params.len(), t.result.is_some() as usize),
                    None => 0,
                },
                Op::CallIndirect(ti) => match m.types.get(*ti as usize) {
                    Some(t) => table.call_indirect(t.params.len(), t.result.is_some() as usize),
                    None => 0,
                },
                Op::Drop => match table {
                    CostTable::V0 => 2,
                    CostTable::V1 => 0,
                },
                // SELECT = TEST + copy 1 (V0) / TEST (V1)
                Op::Select => match table {
                    CostTable::V0 => 3,
                    CostTable::V1 => 2,
                },
                Op::LocalGet(_) | Op::LocalSet(_) | Op::LocalTee(_) => match table {
                    CostTable::V0 => 3,
                    CostTable::V1 => 0,
                },
                Op::GlobalGet(_) | Op::GlobalSet(_) => match table {
                    CostTable::V0 => 3,
                    CostTable::V1 => 1,
                },
                Op::Mem { op, .. } => table.memop(*op),
                Op::MemorySize => match table {
                    CostTable::V0 => 4,
                    CostTable::V1 => 1,
                },
                // read 1 + write 1 + 8
                Op::MemoryGrow => 10,
                Op::I32Const(_) | Op::I64Const(_) => match table {
                    CostTable::V0 => 2,
                    CostTable::V1 => 0,
                },
                Op::Num(n) => table.numop(*n),
                Op::Raw(_) => 0,
            };
            match op {
                Op::Block(bt) | Op::If(bt) => labels.push(bt.arity()),
                Op::Loop(_) => labels.push(0),
                Op::End => {
                    labels.pop();
                }
                _ => {}
            }
            costs.push(c);
            taken.push(t);
        }
        // remaining cost of the segment after each position
        let mut rest = vec![0u64; f.body.len()];
        let mut acc = 0u64;
        for pc in (0..f.body.len()).rev() {
            if ends_segment(&f.body[pc]) {
                acc = 0;
            }
            rest[pc] = acc;
            // instruction pc belongs to the segment that ends at the next terminator at or after pc
            acc += costs[pc];
            if ends_segment(&f.body[pc]) {
                // cost of the terminator itself is part of the segment *it ends*: positions before
                // it see it in their rest.
                acc = costs[pc];
            }
        }
        per_instr.push(costs);
        brif_taken.push(taken);
        seg_rest.push(rest);
    }
    StaticCosts { table, per_instr, brif_taken, invoke_after, seg_rest }
}
