//! Binary format -> AST, written from the WebAssembly 1.0 binary format chapter, restricted to
//! what the AST can express (function imports only, integer value types, at most one table and
//! memory, single results). Anything else is an error (= "not a module within the restrictions").
//! Independent of `/repo`. Integers are range-checked as the spec requires (unused bits of the
//! last byte of a maximal-length LEB128 must be zero / a sign extension).
use crate::ast::*;

pub struct Rd<'a> {
    b: &'a [u8],
    p: usize,
}

type R<T> = Result<T, String>;

impl<'a> Rd<'a> {
    pub fn new(b: &'a [u8]) -> Self { Rd { b, p: 0 } }

    fn eof(&self) -> bool { self.p >= self.b.len() }

    fn byte(&mut self) -> R<u8> {
        let x = *self.b.get(self.p).ok_or("unexpected end")?;
        self.p += 1;
        Ok(x)
    }

    fn take(&mut self, n: usize) -> R<&'a [u8]> {
        if self.p.checked_add(n).map(|e| e <= self.b.len()).unwrap_or(false) {
            let s = &self.b[self.p..self.p + n];
            self.p += n;
            Ok(s)
        } else {
            Err("unexpected end".into())
        }
    }

    fn u32(&mut self) -> R<u32> {
        let mut result: u64 = 0;
        let mut shift = 0;
        for i in 0..5 {
            let b = self.byte()?;
            result |= ((b & 0x7f) as u64) << shift;
            shift += 7;
            if b & 0x80 == 0 {
                return u32::try_from(result).map_err(|_| "u32 out of range".to_string());
            }
            if i == 4 {
                return Err("u32 LEB128 too long".into());
            }
        }
        unreachable!()
    }

    fn sleb(&mut self, max_bytes: usize) -> R<i64> {
        let mut result: i64 = 0;
        let mut shift = 0u32;
        for i in 0..max_bytes {
            let b = self.byte()?;
            if shift == 63 && b != 0x00 && b != 0x7f {
                // 10th byte of a 64-bit integer: only one value bit is left, the unused bits
                // must be a sign extension and the byte must be the last one
                return Err("signed LEB128 out of range".into());
            }
            if shift < 64 {
                result |= ((b & 0x7f) as i64) << shift;
            }
            shift += 7;
            if b & 0x80 == 0 {
                if shift < 64 && (b & 0x40) != 0 {
                    result |= -1i64 << shift;
                }
                return Ok(result);
            }
            if i + 1 == max_bytes {
                return Err("signed LEB128 too long".into());
            }
        }
        unreachable!()
    }

    fn i32(&mut self) -> R<i32> { i32::try_from(self.sleb(5)?).map_err(|_| "i32 out of range".to_string()) }

    fn i64(&mut self) -> R<i64> { self.sleb(10) }

    fn name(&mut self) -> R<String> {
        let n = self.u32()? as usize;
        let s = self.take(n)?;
        String::from_utf8(s.to_vec()).map_err(|_| "name is not utf8".to_string())
    }

    fn valtype(&mut self) -> R<ValType> {
        match self.byte()? {
            0x7f => Ok(ValType::I32),
            0x7e => Ok(ValType::I64),
            b => Err(format!("unsupported value type {b:#x}")),
        }
    }

    fn blocktype(&mut self) -> R<BlockType> {
        match self.byte()? {
            0x40 => Ok(BlockType::Empty),
            0x7f => Ok(BlockType::Val(ValType::I32)),
            0x7e => Ok(BlockType::Val(ValType::I64)),
            b => Err(format!("unsupported block type {b:#x}")),
        }
    }

    fn limits(&mut self) -> R<Limits> {
        match self.byte()? {
            0 => Ok(Limits { min: self.u32()?, max: None }),
            1 => {
                let min = self.u32()?;
                let max = self.u32()?;
                Ok(Limits { min, max: Some(max) })
            }
            b => Err(format!("bad limits tag {b}")),
        }
    }

    fn const_expr(&mut self) -> R<ConstExpr> {
        let c = match self.byte()? {
            0x41 => ConstExpr::I32(self.i32()?),
            0x42 => ConstExpr::I64(self.i64()?),
            0x23 => ConstExpr::GlobalGet(self.u32()?),
            b => return Err(format!("not a constant instruction {b:#x}")),
        };
        if self.byte()? != 0x0b {
            return Err("constant expression not terminated".into());
        }
        Ok(c)
    }

    fn op(&mut self) -> R<Op> {
        let b = self.byte()?;
        Ok(match b {
            0x00 => Op::Unreachable,
            0x01 => Op::Nop,
            0x02 => Op::Block(self.blocktype()?),
            0x03 => Op::Loop(self.blocktype()?),
            0x04 => Op::If(self.blocktype()?),
            0x05 => Op::Else,
            0x0b => Op::End,
            0x0c => Op::Br(self.u32()?),
            0x0d => Op::BrIf(self.u32()?),
            0x0e => {
                let n = self.u32()? as usize;
                let mut ls = Vec::with_capacity(n.min(1024));
                for _ in 0..n {
                    ls.push(self.u32()?);
                }
                Op::BrTable(ls, self.u32()?)
            }
            0x0f => Op::Return,
            0x10 => Op::Call(self.u32()?),
            0x11 => {
                let t = self.u32()?;
                if self.byte()? != 0 {
                    return Err("call_indirect table index must be 0".into());
                }
                Op::CallIndirect(t)
            }
            0x1a => Op::Drop,
            0x1b => Op::Select,
            0x20 => Op::LocalGet(self.u32()?),
            0x21 => Op::LocalSet(self.u32()?),
            0x22 => Op::LocalTee(self.u32()?),
            0x23 => Op::GlobalGet(self.u32()?),
            0x24 => Op::GlobalSet(self.u32()?),
            0x3f => {
                if self.byte()? != 0 {
                    return Err("memory.size index must be 0".into());
                }
                Op::MemorySize
            }
            0x40 => {
                if self.byte()? != 0 {
                    return Err("memory.grow index must be 0".into());
                }
                Op::MemoryGrow
            }
            0x41 => Op::I32Const(self.i32()?),
            0x42 => Op::I64Const(self.i64()?),
            _ => {
                if let Some(m) = MemOp::from_byte(b) {
                    let align = self.u32()?;
                    let offset = self.u32()?;
                    Op::Mem { op: m, align, offset }
                } else if let Some(n) = NumOp::from_byte(b) {
                    Op::Num(n)
                } else {
                    return Err(format!("unsupported instruction {b:#x}"));
                }
            }
        })
    }
}

/// Decode a module. Errors mean "malformed or outside the supported subset".
pub fn decode(bytes: &[u8]) -> R<Module> {
    let mut r = Rd::new(bytes);
    if r.take(4)? != [0x00, 0x61, 0x73, 0x6d] {
        return Err("bad magic".into());
    }
    if r.take(4)? != [1, 0, 0, 0] {
        return Err("bad version".into());
    }
    let mut m = Module::default();
    let mut last = 0u8;
    let mut func_types: Vec<u32> = Vec::new();
    let mut bodies: Option<Vec<(Vec<(u32, ValType)>, Vec<Op>)>> = None;
    let mut have_func_sec = false;
    while !r.eof() {
        let id = r.byte()?;
        let size = r.u32()? as usize;
        let body = r.take(size)?;
        let mut s = Rd::new(body);
        if id != 0 {
            if id > 11 {
                return Err(format!("unknown section {id}"));
            }
            if id <= last {
                return Err("section out of order".into());
            }
            last = id;
        }
        match id {
            0 => {
                let name = s.name()?;
                m.customs.push((name, body[s.p..].to_vec()));
                continue;
            }
            1 => {
                let n = s.u32()?;
                for _ in 0..n {
                    if s.byte()? != 0x60 {
                        return Err("function type must start with 0x60".into());
                    }
                    let np = s.u32()?;
                    let mut params = Vec::new();
                    for _ in 0..np {
                        params.push(s.valtype()?);
                    }
                    let nr = s.u32()?;
                    let mut res = Vec::new();
                    for _ in 0..nr {
                        res.push(s.valtype()?);
                    }
                    if res.len() > 1 {
                        return Err("multiple results".into());
                    }
                    m.types.push(FuncType { params, result: res.first().copied() });
                }
            }
            2 => {
                let n = s.u32()?;
                for _ in 0..n {
                    let module = s.name()?;
                    let name = s.name()?;
                    if s.byte()? != 0 {
                        return Err("only function imports are supported".into());
                    }
                    let ty = s.u32()?;
                    m.imports.push(Import { module, name, ty });
                }
            }
            3 => {
                have_func_sec = true;
                let n = s.u32()?;
                for _ in 0..n {
                    func_types.push(s.u32()?);
                }
            }
            4 => {
                let n = s.u32()?;
                if n > 1 {
                    return Err("more than one table".into());
                }
                for _ in 0..n {
                    if s.byte()? != 0x70 {
                        return Err("table element type must be funcref".into());
                    }
                    m.table = Some(s.limits()?);
                }
            }
            5 => {
                let n = s.u32()?;
                if n > 1 {
                    return Err("more than one memory".into());
                }
                for _ in 0..n {
                    m.memory = Some(s.limits()?);
                }
            }
            6 => {
                let n = s.u32()?;
                for _ in 0..n {
                    let ty = s.valtype()?;
                    let mutable = match s.byte()? {
                        0 => false,
                        1 => true,
                        _ => return Err("bad mutability".into()),
                    };
                    let init = s.const_expr()?;
                    m.globals.push(Global { ty, mutable, init });
                }
            }
            7 => {
                let n = s.u32()?;
                for _ in 0..n {
                    let name = s.name()?;
                    let kind = match s.byte()? {
                        0 => ExportKind::Func(s.u32()?),
                        1 => ExportKind::Table(s.u32()?),
                        2 => ExportKind::Memory(s.u32()?),
                        3 => ExportKind::Global(s.u32()?),
                        _ => return Err("bad export kind".into()),
                    };
                    m.exports.push(Export { name, kind });
                }
            }
            8 => {
                m.start = Some(s.u32()?);
            }
            9 => {
                let n = s.u32()?;
                for _ in 0..n {
                    if s.u32()? != 0 {
                        return Err("element segment table index must be 0".into());
                    }
                    let offset = s.const_expr()?;
                    let k = s.u32()?;
                    let mut funcs = Vec::new();
                    for _ in 0..k {
                        funcs.push(s.u32()?);
                    }
                    m.elems.push(Elem { offset, funcs });
                }
            }
            10 => {
                let n = s.u32()?;
                let mut bs = Vec::new();
                for _ in 0..n {
                    let size = s.u32()? as usize;
                    let fb = s.take(size)?;
                    let mut f = Rd::new(fb);
                    let ng = f.u32()?;
                    let mut locals = Vec::new();
                    for _ in 0..ng {
                        let cnt = f.u32()?;
                        let t = f.valtype()?;
                        locals.push((cnt, t));
                    }
                    let mut ops = Vec::new();
                    while !f.eof() {
                        ops.push(f.op()?);
                    }
                    bs.push((locals, ops));
                }
                bodies = Some(bs);
            }
            11 => {
                let n = s.u32()?;
                for _ in 0..n {
                    if s.u32()? != 0 {
                        return Err("data segment memory index must be 0".into());
                    }
                    let offset = s.const_expr()?;
                    let k = s.u32()? as usize;
                    let bytes = s.take(k)?.to_vec();
                    m.datas.push(Data { offset, bytes });
                }
            }
            _ => unreachable!(),
        }
        if !s.eof() {
            return Err(format!("section {id} has trailing bytes"));
        }
    }
    let bodies = bodies.unwrap_or_default();
    let _ = have_func_sec;
    if bodies.len() != func_types.len() {
        return Err("function and code section lengths differ".into());
    }
    for (ty, (locals, body)) in func_types.into_iter().zip(bodies) {
        m.funcs.push(Func { ty, locals, body });
    }
    Ok(m)
}
