//! AST -> WebAssembly binary format (canonical LEB128, optional legal over-long paddings).
use crate::ast::*;

#[derive(Debug, Clone, Copy, Default)]
pub struct EncodeOpts {
    /// Extra continuation bytes added to every unsigned LEB128 integer where the width allows
    /// (u32: total at most 5 bytes). Legal per spec; exercises the parser's LEB handling.
    pub leb_pad: u8,
}

pub fn leb_u(out: &mut Vec<u8>, mut v: u64, pad: u8, max_bytes: usize) {
    let mut n = 0usize;
    let mut tmp = Vec::with_capacity(10);
    loop {
        let b = (v & 0x7f) as u8;
        v >>= 7;
        n += 1;
        if v == 0 {
            tmp.push(b);
            break;
        }
        tmp.push(b | 0x80);
    }
    let extra = (pad as usize).min(max_bytes.saturating_sub(n));
    if extra > 0 {
        let last = tmp.len() - 1;
        tmp[last] |= 0x80;
        for i in 0..extra {
            tmp.push(if i + 1 == extra { 0x00 } else { 0x80 });
        }
    }
    out.extend_from_slice(&tmp);
}

pub fn leb_i(out: &mut Vec<u8>, mut v: i64) {
    loop {
        let b = (v & 0x7f) as u8;
        let sign = b & 0x40 != 0;
        v >>= 7;
        if (v == 0 && !sign) || (v == -1 && sign) {
            out.push(b);
            break;
        }
        out.push(b | 0x80);
    }
}

struct Enc {
    opts: EncodeOpts,
}

impl Enc {
    fn u32(&self, out: &mut Vec<u8>, v: u32) { leb_u(out, v as u64, self.opts.leb_pad, 5) }

    fn name(&self, out: &mut Vec<u8>, s: &str) {
        self.u32(out, s.len() as u32);
        out.extend_from_slice(s.as_bytes());
    }

    fn limits(&self, out: &mut Vec<u8>, l: &Limits) {
        match l.max {
            None => {
                out.push(0);
                self.u32(out, l.min);
            }
            Some(m) => {
                out.push(1);
                self.u32(out, l.min);
                self.u32(out, m);
            }
        }
    }

    fn blocktype(&self, out: &mut Vec<u8>, b: BlockType) {
        match b {
            BlockType::Empty => out.push(0x40),
            BlockType::Val(t) => out.push(t.byte()),
        }
    }

    fn const_expr(&self, out: &mut Vec<u8>, c: &ConstExpr) {
        match c {
            ConstExpr::I32(v) => {
                out.push(0x41);
                leb_i(out, *v as i64);
            }
            ConstExpr::I64(v) => {
                out.push(0x42);
                leb_i(out, *v);
            }
            ConstExpr::GlobalGet(i) => {
                out.push(0x23);
                self.u32(out, *i);
            }
        }
        out.push(0x0b);
    }

    fn op(&self, out: &mut Vec<u8>, op: &Op) {
        match op {
            Op::Unreachable => out.push(0x00),
            Op::Nop => out.push(0x01),
            Op::Block(b) => {
                out.push(0x02);
                self.blocktype(out, *b)
            }
            Op::Loop(b) => {
                out.push(0x03);
                self.blocktype(out, *b)
            }
            Op::If(b) => {
                out.push(0x04);
                self.blocktype(out, *b)
            }
            Op::Else => out.push(0x05),
            Op::End => out.push(0x0b),
            Op::Br(l) => {
                out.push(0x0c);
                self.u32(out, *l)
            }
            Op::BrIf(l) => {
                out.push(0x0d);
                self.u32(out, *l)
            }
            Op::BrTable(ls, d) => {
                out.push(0x0e);
                self.u32(out, ls.len() as u32);
                for l in ls {
                    self.u32(out, *l);
                }
                self.u32(out, *d);
            }
            Op::Return => out.push(0x0f),
            Op::Call(i) => {
                out.push(0x10);
                self.u32(out, *i)
            }
            Op::CallIndirect(t) => {
                out.push(0x11);
                self.u32(out, *t);
                out.push(0x00);
            }
            Op::Drop => out.push(0x1a),
            Op::Select => out.push(0x1b),
            Op::LocalGet(i) => {
                out.push(0x20);
                self.u32(out, *i)
            }
            Op::LocalSet(i) => {
                out.push(0x21);
                self.u32(out, *i)
            }
            Op::LocalTee(i) => {
                out.push(0x22);
                self.u32(out, *i)
            }
            Op::GlobalGet(i) => {
                out.push(0x23);
                self.u32(out, *i)
            }
            Op::GlobalSet(i) => {
                out.push(0x24);
                self.u32(out, *i)
            }
            Op::Mem { op, align, offset } => {
                out.push(op.byte());
                self.u32(out, *align);
                self.u32(out, *offset);
            }
            Op::MemorySize => {
                out.push(0x3f);
                out.push(0x00)
            }
            Op::MemoryGrow => {
                out.push(0x40);
                out.push(0x00)
            }
            Op::I32Const(v) => {
                out.push(0x41);
                leb_i(out, *v as i64)
            }
            Op::I64Const(v) => {
                out.push(0x42);
                leb_i(out, *v)
            }
            Op::Num(n) => out.push(n.byte()),
            Op::Raw(b) => out.extend_from_slice(b),
        }
    }

    fn section(&self, out: &mut Vec<u8>, id: u8, body: &[u8]) {
        out.push(id);
        self.u32(out, body.len() as u32);
        out.extend_from_slice(body);
    }
}

pub fn encode_body(f: &Func, opts: EncodeOpts) -> Vec<u8> {
    let e = Enc { opts };
    let mut b = Vec::new();
    e.u32(&mut b, f.locals.len() as u32);
    for (n, t) in &f.locals {
        e.u32(&mut b, *n);
        b.push(t.byte());
    }
    for op in &f.body {
        e.op(&mut b, op);
    }
    b
}

pub fn encode(m: &Module) -> Vec<u8> { encode_with(m, EncodeOpts::default()) }

pub fn encode_with(m: &Module, opts: EncodeOpts) -> Vec<u8> {
    let e = Enc { opts };
    let mut out = vec![0x00, 0x61, 0x73, 0x6d, 0x01, 0x00, 0x00, 0x00];
    for (name, payload) in &m.customs {
        let mut b = Vec::new();
        e.name(&mut b, name);
        b.extend_from_slice(payload);
        e.section(&mut out, 0, &b);
    }
    if !m.types.is_empty() {
        let mut b = Vec::new();
        e.u32(&mut b, m.types.len() as u32);
        for t in &m.types {
            b.push(0x60);
            e.u32(&mut b, t.params.len() as u32);
            for p in &t.params {
                b.push(p.byte());
            }
            match t.result {
                None => e.u32(&mut b, 0),
                Some(r) => {
                    e.u32(&mut b, 1);
                    b.push(r.byte());
                }
            }
        }
        e.section(&mut out, 1, &b);
    }
    if !m.imports.is_empty() {
        let mut b = Vec::new();
        e.u32(&mut b, m.imports.len() as u32);
        for i in &m.imports {
            e.name(&mut b, &i.module);
            e.name(&mut b, &i.name);
            b.push(0x00);
            e.u32(&mut b, i.ty);
        }
        e.section(&mut out, 2, &b);
    }
    if !m.funcs.is_empty() {
        let mut b = Vec::new();
        e.u32(&mut b, m.funcs.len() as u32);
        for f in &m.funcs {
            e.u32(&mut b, f.ty);
        }
        e.section(&mut out, 3, &b);
    }
    if let Some(t) = &m.table {
        let mut b = Vec::new();
        e.u32(&mut b, 1);
        b.push(0x70);
        e.limits(&mut b, t);
        e.section(&mut out, 4, &b);
    }
    if let Some(t) = &m.memory {
        let mut b = Vec::new();
        e.u32(&mut b, 1);
        e.limits(&mut b, t);
        e.section(&mut out, 5, &b);
    }
    if !m.globals.is_empty() {
        let mut b = Vec::new();
        e.u32(&mut b, m.globals.len() as u32);
        for g in &m.globals {
            b.push(g.ty.byte());
            b.push(g.mutable as u8);
            e.const_expr(&mut b, &g.init);
        }
        e.section(&mut out, 6, &b);
    }
    if !m.exports.is_empty() {
        let mut b = Vec::new();
        e.u32(&mut b, m.exports.len() as u32);
        for x in &m.exports {
            e.name(&mut b, &x.name);
            match x.kind {
                ExportKind::Func(i) => {
                    b.push(0);
                    e.u32(&mut b, i)
                }
                ExportKind::Table(i) => {
                    b.push(1);
                    e.u32(&mut b, i)
                }
                ExportKind::Memory(i) => {
                    b.push(2);
                    e.u32(&mut b, i)
                }
                ExportKind::Global(i) => {
                    b.push(3);
                    e.u32(&mut b, i)
                }
            }
        }
        e.section(&mut out, 7, &b);
    }
    if let Some(s) = m.start {
        let mut b = Vec::new();
        e.u32(&mut b, s);
        e.section(&mut out, 8, &b);
    }
    if !m.elems.is_empty() {
        let mut b = Vec::new();
        e.u32(&mut b, m.elems.len() as u32);
        for el in &m.elems {
            e.u32(&mut b, 0);
            e.const_expr(&mut b, &el.offset);
            e.u32(&mut b, el.funcs.len() as u32);
            for f in &el.funcs {
                e.u32(&mut b, *f);
            }
        }
        e.section(&mut out, 9, &b);
    }
    if !m.funcs.is_empty() {
        let mut b = Vec::new();
        e.u32(&mut b, m.funcs.len() as u32);
        for f in &m.funcs {
            let body = encode_body(f, opts);
            e.u32(&mut b, body.len() as u32);
            b.extend_from_slice(&body);
        }
        e.section(&mut out, 10, &b);
    }
    if !m.datas.is_empty() {
        let mut b = Vec::new();
        e.u32(&mut b, m.datas.len() as u32);
        for d in &m.datas {
            e.u32(&mut b, 0);
            e.const_expr(&mut b, &d.offset);
            e.u32(&mut b, d.bytes.len() as u32);
            b.extend_from_slice(&d.bytes);
        }
        e.section(&mut out, 11, &b);
    }
    out
}
