//! Drives the real engine (`concordium-wasm` from /repo): instantiate generated modules under a
//! validation/metering configuration and run exports with a recording host.
use concordium_wasm::{
    artifact::{Artifact, ArtifactNamedImport, CompiledFunction, RunnableCode},
    machine::{ExecutionOutcome, Host, RunConfig, RunResult, RuntimeStack},
    types::{FunctionType, Name, ValueType},
    utils,
    validate::{ValidateImportExport, ValidationConfig},
    CostConfigurationV0, CostConfigurationV1,
};
pub use concordium_wasm::machine::Value;
use wasmgen::ast::ValType;
use wasmgen::hostmodel::HostModel;

pub type OwnedArt = Artifact<ArtifactNamedImport, CompiledFunction>;

#[derive(Debug, Clone, Copy, PartialEq, Eq, Hash)]
pub enum VCfg {
    V0,
    V1,
}

impl VCfg {
    pub fn real(self) -> ValidationConfig {
        match self {
            VCfg::V0 => ValidationConfig::V0,
            VCfg::V1 => ValidationConfig::V1,
        }
    }
}

#[derive(Debug, Clone, Copy, PartialEq, Eq, Hash)]
pub enum Metering {
    None,
    V0,
    V1,
}

/// Accepts every function import and export (the import/export policy is checked separately).
pub struct AllowAll;
impl ValidateImportExport for AllowAll {
    fn validate_import_function(&self, _dup: bool, _m: &Name, _i: &Name, _ty: &FunctionType) -> bool { true }

    fn validate_export_function(&self, _n: &Name, _ty: &FunctionType) -> bool { true }
}

pub fn instantiate(bytes: &[u8], v: VCfg, metering: Metering) -> anyhow::Result<OwnedArt> {
    instantiate_with(bytes, v, metering, &AllowAll)
}

/// Parse and validate only (no compilation): the verdict of `validate_module` itself.
pub fn validate_only(bytes: &[u8], v: VCfg) -> anyhow::Result<()> {
    let skeleton = concordium_wasm::parse::parse_skeleton(bytes)?;
    concordium_wasm::validate::validate_module(v.real(), &AllowAll, &skeleton)?;
    Ok(())
}

pub fn instantiate_with(
    bytes: &[u8],
    v: VCfg,
    metering: Metering,
    policy: &impl ValidateImportExport,
) -> anyhow::Result<OwnedArt> {
    Ok(match metering {
        Metering::None => utils::instantiate::<ArtifactNamedImport, _>(v.real(), policy, bytes)?.artifact,
        Metering::V0 => {
            utils::instantiate_with_metering::<ArtifactNamedImport>(v.real(), CostConfigurationV0, policy, bytes)?
                .artifact
        }
        Metering::V1 => {
            utils::instantiate_with_metering::<ArtifactNamedImport>(v.real(), CostConfigurationV1, policy, bytes)?
                .artifact
        }
    })
}

#[derive(Debug, Clone, PartialEq, Eq)]
pub enum Event {
    InitMem { pages: u32 },
    /// A call to one of the "env" host functions; `ticked` is the energy ticked before it.
    HostCall { name: String, args: Vec<u64>, ticked: u64, mem_len: usize },
    /// The metering host call announcing `memory.grow pages`; `mem_len` is the memory size seen.
    MemAlloc { pages: u32, ticked: u64, mem_len: usize },
}

#[derive(Debug)]
pub struct OutOfEnergy;
impl std::fmt::Display for OutOfEnergy {
    fn fmt(&self, f: &mut std::fmt::Formatter<'_>) -> std::fmt::Result { write!(f, "out of energy") }
}
impl std::error::Error for OutOfEnergy {}

#[derive(Debug)]
pub struct DepthExceeded;
impl std::fmt::Display for DepthExceeded {
    fn fmt(&self, f: &mut std::fmt::Formatter<'_>) -> std::fmt::Result { write!(f, "call depth exceeded") }
}
impl std::error::Error for DepthExceeded {}

#[derive(Debug)]
pub struct HostTrap;
impl std::fmt::Display for HostTrap {
    fn fmt(&self, f: &mut std::fmt::Formatter<'_>) -> std::fmt::Result { write!(f, "host trap") }
}
impl std::error::Error for HostTrap {}

/// Recording host.
pub struct RecHost {
    pub model:        HostModel,
    pub remaining:    u64,
    pub ticked:       u64,
    pub tick_events:  u64,
    pub events:       Vec<Event>,
    pub depth:        usize,
    pub max_depth:    usize,
    pub track_calls:  u64,
    pub track_returns: u64,
    /// Energy charged per page by the metering host call.
    pub page_cost:    u64,
    /// Ordinals (0-based, over "env" host calls) at which the host interrupts instead of answering.
    pub interrupt_at: Vec<u64>,
    pub host_calls:   u64,
    /// Response stashed for the harness when an interrupt was triggered.
    pub pending:      Option<Option<u64>>,
}

impl RecHost {
    pub fn new(energy: u64) -> Self {
        RecHost {
            model: HostModel::default(),
            remaining: energy,
            ticked: 0,
            tick_events: 0,
            events: Vec::new(),
            depth: 0,
            max_depth: 1024,
            track_calls: 0,
            track_returns: 0,
            page_cost: 0,
            interrupt_at: Vec::new(),
            host_calls: 0,
            pending: None,
        }
    }

    fn charge(&mut self, e: u64) -> RunResult<()> {
        if self.remaining < e {
            self.remaining = 0;
            Err(anyhow::Error::new(OutOfEnergy))
        } else {
            self.remaining -= e;
            self.ticked += e;
            Ok(())
        }
    }
}

impl Host<ArtifactNamedImport> for RecHost {
    type Interrupt = u64;

    fn tick_initial_memory(&mut self, num_pages: u32) -> RunResult<()> {
        self.events.push(Event::InitMem { pages: num_pages });
        Ok(())
    }

    fn call(
        &mut self,
        f: &ArtifactNamedImport,
        memory: &mut [u8],
        stack: &mut RuntimeStack,
    ) -> RunResult<Option<u64>> {
        use concordium_wasm::artifact::TryFromImport;
        if f.matches("concordium_metering", "account_memory") {
            let pages = unsafe { stack.pop_u32() };
            self.events.push(Event::MemAlloc { pages, ticked: self.ticked, mem_len: memory.len() });
            self.charge(self.page_cost.saturating_mul(pages as u64))?;
            stack.push_value(pages);
            return Ok(None);
        }
        let ty = f.ty();
        let mut args = vec![0u64; ty.parameters.len()];
        for (i, p) in ty.parameters.iter().enumerate().rev() {
            args[i] = match p {
                ValueType::I32 => (unsafe { stack.pop_u32() }) as u64,
                ValueType::I64 => unsafe { stack.pop_u64() },
            };
        }
        let name = f.get_item_name().to_string();
        self.events.push(Event::HostCall { name: name.clone(), args: args.clone(), ticked: self.ticked, mem_len: memory.len() });
        // (same reason: a declared type with fewer parameters than the model reads gets zero arguments)
        let need = match name.as_str() {
            "h_mix" | "h_poke" => 2,
            "h_peek" | "h_trap" => 1,
            _ => 0,
        };
        let mut margs = args.clone();
        if margs.len() < need {
            margs.resize(need, 0);
        }
        let r = self.model.call(&name, &margs, memory).map_err(|_| anyhow::Error::new(HostTrap))?;
        // The host contract follows the import's *declared* type (the chain validates import types
        // before it ever runs a module; this harness admits any import). A byte-mutated module may
        // declare a known host name with another type: then the declared type wins, a missing result is 0
        // and a surplus result is dropped. Generated modules always declare the model's types.
        let r = match (ty.result, r) {
            (Some(_), Some(v)) => Some(v),
            (Some(_), None) => Some(0),
            (None, _) => None,
        };
        let ordinal = self.host_calls;
        self.host_calls += 1;
        if self.interrupt_at.contains(&ordinal) {
            self.pending = Some(r);
            return Ok(Some(ordinal));
        }
        if let Some(v) = r {
            match ty.result {
                Some(ValueType::I32) => stack.push_value(v as u32),
                Some(ValueType::I64) => stack.push_value(v),
                None => {}
            }
        }
        Ok(None)
    }

    fn tick_energy(&mut self, energy: u64) -> RunResult<()> {
        self.tick_events += 1;
        self.charge(energy)
    }

    fn track_call(&mut self) -> RunResult<()> {
        self.track_calls += 1;
        self.depth += 1;
        if self.depth > self.max_depth {
            Err(anyhow::Error::new(DepthExceeded))
        } else {
            Ok(())
        }
    }

    fn track_return(&mut self) {
        self.track_returns += 1;
        self.depth = self.depth.saturating_sub(1);
    }
}

#[derive(Debug, Clone, PartialEq, Eq)]
pub enum RealOutcome {
    Done { result: Option<u64>, memory: Vec<u8> },
    Trap(String),
    OutOfEnergy,
    /// The verification step limit (hook H1) was hit.
    StepLimit,
}

impl RealOutcome {
    pub fn kind(&self) -> &'static str {
        match self {
            RealOutcome::Done { .. } => "done",
            RealOutcome::Trap(_) => "trap",
            RealOutcome::OutOfEnergy => "out-of-energy",
            RealOutcome::StepLimit => "step-limit",
        }
    }
}

pub fn to_values(ty: &[ValType], raw: &[u64]) -> Vec<Value> {
    ty.iter()
        .zip(raw)
        .map(|(t, v)| match t {
            ValType::I32 => Value::I32(*v as u32 as i32),
            ValType::I64 => Value::I64(*v as i64),
        })
        .collect()
}

fn classify(e: anyhow::Error) -> RealOutcome {
    if e.downcast_ref::<OutOfEnergy>().is_some() {
        RealOutcome::OutOfEnergy
    } else if e.to_string().contains("verif: step limit") {
        RealOutcome::StepLimit
    } else {
        RealOutcome::Trap(e.to_string())
    }
}

fn finish(o: ExecutionOutcome<u64>) -> Result<RealOutcome, (u64, RunConfig)> {
    match o {
        ExecutionOutcome::Success { result, memory } => Ok(RealOutcome::Done {
            result: result.map(|v| match v {
                Value::I32(x) => x as u32 as u64,
                Value::I64(x) => x as u64,
            }),
            memory,
        }),
        ExecutionOutcome::Interrupted { reason, config } => Err((reason, config)),
    }
}

/// Run an export to completion. Interrupts requested by `host.interrupt_at` are resumed with the
/// response the host stashed; `on_interrupt` is told about each one.
pub fn run<R: RunnableCode>(
    art: &Artifact<ArtifactNamedImport, R>,
    name: &str,
    args: &[Value],
    host: &mut RecHost,
    step_limit: u64,
) -> (RealOutcome, u64) {
    concordium_wasm::machine::verif::reset(step_limit);
    // the engine never makes the linear memory longer than the artifact's maximal size
    vcore::alloc::set_dirty_bound(art.memory.as_ref().map(|m| m.max_size as usize * 65536).unwrap_or(0));
    let mut interrupts = 0u64;
    let mut res = art.run(host, name, args);
    loop {
        match res {
            Err(e) => return (classify(e), interrupts),
            Ok(o) => match finish(o) {
                Ok(out) => return (out, interrupts),
                Err((_reason, mut config)) => {
                    interrupts += 1;
                    if let Some(Some(v)) = host.pending.take() {
                        // the type of the pushed value does not matter for the machine: it is a
                        // raw 64-bit slot; push as i64 bits
                        config.push_value(v);
                    }
                    res = art.run_config(host, config);
                }
            },
        }
    }
}

pub fn steps() -> u64 { concordium_wasm::machine::verif::steps() }
