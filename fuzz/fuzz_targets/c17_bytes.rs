#![no_main]
//! Coverage-guided driver for target "bytes" of C17: the same decode + oracle as the
//! proptest-driven check; a violation aborts so that libFuzzer saves the input, which is then a
//! replay file for `bin/check C17 quick --replay <file> --target bytes`.
use libfuzzer_sys::fuzz_target;
use std::sync::OnceLock;

#[global_allocator]
static A: vcore::alloc::Counting = vcore::alloc::Counting;

static PROP: OnceLock<vcore::Property> = OnceLock::new();

fuzz_target!(|data: &[u8]| {
    let p = PROP.get_or_init(c17::property);
    let t = p.targets.iter().find(|t| t.name == "bytes").expect("target");
    vcore::fuzz_one(p.id, t, data);
});
