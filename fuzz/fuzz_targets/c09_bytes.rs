#![no_main]
//! Coverage-guided driver for the byte-level target of C09: the same decode + oracle as the
//! proptest-driven check (`c09::property()` target "bytes"); a violation aborts so that libFuzzer
//! saves the input, which is then a replay file for `bin/check C09 quick --replay <file> --target bytes`.
use libfuzzer_sys::fuzz_target;
use std::sync::OnceLock;

static PROP: OnceLock<vcore::Property> = OnceLock::new();

fuzz_target!(|data: &[u8]| {
    let p = PROP.get_or_init(c09::property);
    let t = p.targets.iter().find(|t| t.name == "bytes").expect("target");
    vcore::fuzz_one(p.id, t, data);
});
