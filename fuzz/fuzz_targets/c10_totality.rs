#![no_main]
//! Coverage-guided driver for target "totality" of C10: the same decode + oracle as the
//! proptest-driven check; a violation aborts so that libFuzzer saves the input, which is then a
//! replay file for `bin/check C10 quick --replay <file> --target totality`.
use libfuzzer_sys::fuzz_target;
use std::sync::OnceLock;

#[global_allocator]
static A: vcore::alloc::Counting = vcore::alloc::Counting;

static PROP: OnceLock<vcore::Property> = OnceLock::new();

fuzz_target!(|data: &[u8]| {
    let p = PROP.get_or_init(c10::property);
    let t = p.targets.iter().find(|t| t.name == "totality").expect("target");
    vcore::fuzz_one(p.id, t, data);
});
